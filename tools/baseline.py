#!/usr/bin/env python3
"""Run the repository's pinned test suite on a tree (default /repo) and compare with
/root/.vp/BASELINE.json's stable_pass list.  Exit 0 iff every stable test passes.

usage: tools/baseline.py [repo_dir] [--env KEY=VAL ...]
"""
import json, os, subprocess, sys, tempfile, xml.etree.ElementTree as ET

def main():
    args = sys.argv[1:]
    repo = '/repo'
    env = dict(os.environ)
    while args:
        a = args.pop(0)
        if a == '--env':
            k, v = args.pop(0).split('=', 1)
            env[k] = v
        else:
            repo = a
    base = json.load(open('/root/.vp/BASELINE.json'))
    stable = set(base['stable_pass'])
    fd, junit = tempfile.mkstemp(suffix='.xml')
    os.close(fd)
    try:
        subprocess.run(['/venv/bin/python', '-m', 'pytest', '-q', '-p', 'no:cacheprovider',
                        '--timeout=900', '--continue-on-collection-errors', '--junitxml=' + junit],
                       cwd=repo, env=env, stdout=subprocess.DEVNULL, stderr=subprocess.DEVNULL)
        passed = set()
        for tc in ET.parse(junit).getroot().iter('testcase'):
            bad = any(ch.tag in ('failure', 'error', 'skipped') for ch in tc)
            if not bad:
                passed.add('%s::%s' % (tc.get('classname'), tc.get('name')))
    finally:
        os.unlink(junit)
    missing = sorted(stable - passed)
    print('stable=%d passed_now=%d missing=%d' % (len(stable), len(passed), len(missing)))
    for m in missing[:40]:
        print('  MISSING', m)
    return 1 if missing else 0

if __name__ == '__main__':
    sys.exit(main())
