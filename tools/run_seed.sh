#!/bin/sh
# usage: tools/run_seed.sh <seed_id> <check_prop>...   e.g. tools/run_seed.sh C02-1 C02 C11
# Applies /verif/seeded/<seed_id>/patch.diff to /repo, runs the given checks (quick), reverts /repo.
S=$1; shift
cd /repo || exit 2
if [ -n "$(git status --porcelain --untracked-files=no)" ]; then echo "/repo not clean"; exit 2; fi
if ! git apply /verif/seeded/$S/patch.diff; then echo "$S: patch does not apply to current /repo"; exit 2; fi
for P in "$@"; do
  out=$(cd /verif && ./check $P --tier quick 2>&1); rc=$?
  echo "seed=$S check=$P exit=$rc $(echo "$out" | grep -m1 '^VIOLATION' | cut -c1-160)"
  echo "$out" | grep -A1 '^VIOLATION' | grep -v '^VIOLATION' | head -2 | cut -c1-260
  echo "$out" | grep -m2 'CHECKER-DEFECT'
done
git checkout -- . ; git status --porcelain --untracked-files=no | head -3
