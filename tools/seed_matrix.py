#!/usr/bin/env python3
"""Run every confirmed seeded change against the check of the property it breaks (on a scratch copy of /repo,
never /repo itself) and write /verif/seeded/MATRIX.json + MATRIX.md.
usage: tools/seed_matrix.py [seed_id ...]"""
import json, os, shutil, subprocess, sys, tempfile, time

HERE = os.path.dirname(os.path.dirname(os.path.abspath(__file__)))
EXTRA = {'C05-3': ['C03'], 'C10-2': ['C12'], 'C06-1': ['C01'], 'C06-2': ['C01', 'C02'], 'C11-1': ['C01', 'C02'], 'C01-1': ['C02'], 'C02-2': ['C01'],
         'C13-1': ['C03'], 'C03-2': ['C05'], 'C12-2': ['C13']}


def main():
    seeds = sorted(d for d in os.listdir(os.path.join(HERE, 'seeded')) if os.path.isdir(os.path.join(HERE, 'seeded', d)))
    if len(sys.argv) > 1:
        seeds = [s for s in seeds if s in sys.argv[1:]]
    mpath = os.path.join(HERE, 'seeded', 'MATRIX.json')
    matrix = json.load(open(mpath)) if os.path.exists(mpath) else {}
    for s in seeds:
        prop = s.split('-')[0]
        scratch = tempfile.mkdtemp(prefix='seedrepo-')
        try:
            subprocess.check_call(['git', '-C', '/repo', 'worktree', 'add', '-q', '--detach', os.path.join(scratch, 'r'), 'HEAD'])
            repo = os.path.join(scratch, 'r')
            r = subprocess.run(['git', '-C', repo, 'apply', os.path.join(HERE, 'seeded', s, 'patch.diff')], capture_output=True, text=True)
            if r.returncode != 0:
                matrix[s] = {'error': 'patch does not apply to current /repo HEAD: ' + r.stderr[:200]}
                continue
            row = {}
            for p in [prop] + EXTRA.get(s, []):
                t0 = time.time()
                env = dict(os.environ, NBDIME_REPO=repo, VERIF_EVIDENCE_DIR=os.path.join(scratch, 'evidence'), PYVC_CACHE='1')
                pr = subprocess.run([os.path.join(HERE, 'check'), p, '--tier', 'quick'], capture_output=True, text=True, env=env, cwd=HERE)
                viol = [l for l in pr.stdout.splitlines() if l.startswith('VIOLATION')]
                detail = ''
                lines = pr.stdout.splitlines()
                for i, l in enumerate(lines):
                    if l.startswith('VIOLATION') and i + 1 < len(lines):
                        detail = lines[i + 1].strip()[:220]
                        break
                row[p] = {'exit': pr.returncode, 'violations': len(viol), 'first': detail, 'seconds': round(time.time() - t0, 1),
                          'no_failing_input_found': any('no-failing-input-found' in v for v in viol) and not any('no-failing-input-found' not in v for v in viol)}
                print(s, p, row[p]['exit'], detail[:120], flush=True)
            matrix[s] = row
        finally:
            subprocess.call(['git', '-C', '/repo', 'worktree', 'remove', '--force', os.path.join(scratch, 'r')])
            shutil.rmtree(scratch, ignore_errors=True)
            json.dump(matrix, open(mpath, 'w'), indent=1, sort_keys=True)
    # evidence files were rewritten by runs on mutated trees: callers re-run the checks on /repo afterwards
    with open(os.path.join(HERE, 'seeded', 'MATRIX.md'), 'w') as fh:
        fh.write('# Seeded changes vs checks (quick tier, run on a scratch worktree with the change applied)\n\n')
        fh.write('| seed | own check | other checks | first report |\n|---|---|---|---|\n')
        for s in sorted(matrix):
            row = matrix[s]
            if 'error' in row:
                fh.write('| %s | n/a | | %s |\n' % (s, row['error']))
                continue
            prop = s.split('-')[0]
            own = row.get(prop, {})
            others = ', '.join('%s:%s' % (p, 'caught' if v['exit'] == 1 else 'exit %d' % v['exit']) for p, v in sorted(row.items()) if p != prop)
            fh.write('| %s | %s | %s | %s |\n' % (s, 'CAUGHT' if own.get('exit') == 1 else 'missed (exit %s)' % own.get('exit'), others,
                                                  (own.get('first') or '').replace('|', '/')))


if __name__ == '__main__':
    main()
