#!/bin/sh
# usage: tools/mut_e.sh <file> <sed-expr>   -- run the Tier E script on a mutated scratch copy
D=$(mktemp -d /tmp/pyvc-mut.XXXXXX); cp -r /repo/nbdime "$D/"
sed -i "$2" "$D/$1"
if cmp -s "$D/$1" "/repo/$1"; then echo "MUTATION DID NOT APPLY"; fi
cd /verif && NBDIME_REPO=$D .venv/bin/python /tmp/scratch/te.py $3 2>&1 | grep -v "^   R" | cut -c1-220
rm -rf "$D"
