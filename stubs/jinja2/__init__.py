"""Minimal stub of jinja2 (not installed in the sandbox) so that nbdime.webapp can be imported."""


class FileSystemLoader:
    def __init__(self, searchpath=None, *a, **k):
        self.searchpath = searchpath


class ChoiceLoader:
    def __init__(self, loaders=None):
        self.loaders = loaders or []


class _Template:
    def __init__(self, name):
        self.name = name

    def render(self, **kw):
        return '<html><!-- stub template %s --><body>%s</body></html>' % (self.name, sorted(kw))


class Environment:
    def __init__(self, loader=None, **kw):
        self.loader = loader

    def get_template(self, name):
        return _Template(name)
