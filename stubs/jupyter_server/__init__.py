"""Minimal stub of jupyter_server (not installed in the sandbox)."""
