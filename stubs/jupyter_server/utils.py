def url_path_join(*pieces):
    initial = pieces[0].startswith('/')
    final = pieces[-1].endswith('/')
    stripped = [s.strip('/') for s in pieces]
    result = '/'.join(s for s in stripped if s)
    if initial:
        result = '/' + result
    if final:
        result = result + '/'
    if result == '//':
        result = '/'
    return result


def url_escape(path):
    from urllib.parse import quote
    return '/'.join(quote(p) for p in path.split('/'))


def to_os_path(path, root=''):
    import os
    parts = [p for p in path.strip('/').split('/') if p]
    return os.path.join(root, *parts)


async def ensure_async(obj):
    import inspect
    if inspect.isawaitable(obj):
        return await obj
    return obj
