from tornado import web


class JupyterHandler(web.RequestHandler):
    @property
    def base_url(self):
        return self.settings.get('base_url', '/')

    def get_json_body(self):
        import json
        from tornado import escape
        if not self.request.body:
            return None
        return json.loads(escape.to_unicode(self.request.body))

    def check_xsrf_cookie(self):
        return None


class APIHandler(JupyterHandler):
    def finish(self, *args, **kwargs):
        return super().finish(*args, **kwargs)
