def log_request(handler):
    return None
