"""Minimal stub of requests (not installed in the sandbox)."""
from . import exceptions


def get(*a, **k):
    raise exceptions.HTTPError('requests stub: no network in the sandbox')
