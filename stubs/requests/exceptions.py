class HTTPError(Exception):
    pass
